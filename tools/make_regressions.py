"""Build the regression part of /verif/seeded: for every repaired defect (status=fixed in known_findings.json) the
reverse of its fix commit is a realistic property-breaking change that the repository's own tests do not notice
(the pinned suite passed before the repair).  For each one: write the reverse patch, run the property's check
against a scratch worktree with the patch applied, keep the replay file of the first reported signature as the
demonstration, and write meta.json.

usage: /venv/bin/python tools/make_regressions.py [only_property_ids...]
"""
import glob
import json
import os
import re
import shutil
import subprocess
import sys
import time

ROOT = "/verif"
only = set(sys.argv[1:])
d = json.load(open(f"{ROOT}/known_findings.json"))


def sh(cmd, **kw):
    return subprocess.run(cmd, shell=True, capture_output=True, text=True, **kw)


seen = set()
n = 0
for e in d["findings"]:
    if e.get("status") != "fixed":
        continue
    pid, commit = e["property"], e["commit"]
    if only and pid not in only:
        continue
    if (pid, commit) in seen:
        continue
    seen.add((pid, commit))
    name = f"regress-{pid}-{commit[:7]}"
    out = f"{ROOT}/seeded/{name}"
    if os.path.exists(f"{out}/meta.json"):
        continue
    os.makedirs(out, exist_ok=True)
    wt = f"/tmp/wt/reg-{os.getpid()}"
    sh(f"git -C /repo worktree add -f {wt} HEAD")
    try:
        p = sh(f"git -C /repo show {commit} --format= -- src | git -C {wt} apply -R --whitespace=nowarn -")
        if p.returncode != 0:
            json.dump({"property": pid, "kind": "reverse of fix commit", "commit": commit, "status": "reverse patch does not apply on HEAD (later fix touches the same lines)",
                       "stderr": p.stderr[-300:]}, open(f"{out}/meta.json", "w"), indent=1)
            continue
        diff = sh(f"git -C {wt} diff").stdout
        open(f"{out}/patch.diff", "w").write(diff)
        result = {}
        for tier in ("quick", "thorough"):
            shutil.rmtree(f"{ROOT}/replays/{pid}", ignore_errors=True)
            t0 = time.time()
            r = sh(f"PYTHONPATH={wt}/src ./check {pid} --tier {tier} --jobs 12", cwd=ROOT, timeout=7200)
            sigs = re.findall(r"^\s+sig: (.*?)(?:  \(\d+ failing cases\).*)?$", r.stdout, re.M)
            replays = re.findall(r"VIOLATION property=\S+ replay=(\S+)", r.stdout)
            result[tier] = {"exit": r.returncode, "sigs": sigs[:8], "n_sigs": len(sigs), "wall_s": round(time.time() - t0, 1)}
            if r.returncode == 1 and replays:
                shutil.copy(replays[0], f"{out}/demo_replay.json")
                break
        caught = any(v["exit"] == 1 for v in result.values())
        demo_ok = None
        if caught:
            # the demonstration: replay of one counter-example; fails with the change, passes without
            a = sh(f"PYTHONPATH={wt}/src ./check {pid} --replay {out}/demo_replay.json", cwd=ROOT, timeout=1800)
            b = sh(f"./check {pid} --replay {out}/demo_replay.json", cwd=ROOT, timeout=1800)
            demo_ok = a.returncode == 1 and b.returncode == 0
        json.dump({
            "property": pid, "kind": "reverse of a fix commit (re-introduces a defect the pinned tests did not notice)",
            "commit": commit, "subject": e.get("subject"), "what": e["what"], "needs": e.get("example"),
            "tests": "the pinned suite (19948 stable-pass tests) passed on the tree that still had this defect; tools/baseline.py confirms it passes after all fixes",
            "demonstration": f"./check {pid} --replay seeded/{name}/demo_replay.json  (exit 1 with the change, exit 0 without)" if caught else None,
            "demonstration_verified": demo_ok, "check_result": result, "caught": caught,
        }, open(f"{out}/meta.json", "w"), indent=1)
        n += 1
        print(name, "caught" if caught else "MISSED", result.get("quick", {}).get("n_sigs"), flush=True)
    finally:
        sh(f"git -C /repo worktree remove --force {wt}")
print("done", n)
